"""Debug helper: execute a replay file's plan and print the ether history in readable form.
usage: PYTHONPATH=/repo/src:/verif python tools/trace.py replays/X.json"""
import json, sys, importlib
from fsim import refcodec as rc
doc = json.load(open(sys.argv[1]))
mod = importlib.import_module("fsim.props." + doc["property"].lower())
simcls = getattr(mod, "SIM", None)
sim = mod.make_sim(doc["plan"]) if hasattr(mod, "make_sim") else None
sim.run()
def summ(frame):
    try:
        p = rc.parse_packet(frame)
    except rc.Malformed as e:
        return "MALFORMED " + str(e)
    if "secured" in p:
        return f"SECURED rhl={p['basic']['rhl']} len={len(frame)}"
    s = f"{rc.ptype(p)} rhl={p['basic']['rhl']} mhl={p['common']['mhl']} lt={p['basic']['lt']} so={p['so']['addr']['mid'].hex()[-4:]} tst={p['so']['tst']}"
    if "sn" in p: s += f" sn={p['sn']}"
    if "de" in p: s += f" de={p['de']['addr']['mid'].hex()[-4:]}"
    if "req_addr" in p: s += f" req={p['req_addr'].hex()[-4:]}"
    s += f" pl={len(p['payload'])}"
    return s
ev = []
t0 = sim.kernel.t0_us
for t in sim.hist.tx: ev.append((t["t"], 0, f"TX  st{t['st']} #{t['i']} {summ(t['frame'])} cause={t['cause']}"))
for r in sim.hist.rx: ev.append((r["t"], 1, f"RX  st{r['st']} <-tx#{r['tx']} {summ(r['frame'])} dpl={r.get('dpl')} exc={r['exc']!r} fault={r['fault']}"))
for i in sim.hist.ind: ev.append((i["t"], 2, f"IND st{i['st']} port={i['port']} len={len(i['ind'].data)} cause={i['cause']}"))
for o in sim.hist.ops: ev.append((o["t"], -1, f"OP  #{o['idx']} {o['op']['op']} {o['op'].get('type','')} st={o['op'].get('st')} exc={o['exc']!r}"))
for t, _, line in sorted(ev, key=lambda x: (x[0], x[1])): print(f"{(t-t0)/1000:10.3f}ms {line}")
for i, s in enumerate(sim.stations): print("station", i, s.mac.hex())
