#!/bin/bash
# Runs the repo's pinned suite (guard off) and compares with /root/.vp/BASELINE.json stable_pass.
# usage: tools/baseline.sh [repo_dir]
REPO="${1:-/repo}"
OUT=$(mktemp /tmp/baseline.XXXXXX.xml)
cd "$REPO" && env -u FLEXSTACK_VERIF PYTHONPATH="$REPO/src" /venv/bin/python -m pytest -q -p no:cacheprovider --timeout=900 --continue-on-collection-errors --junitxml="$OUT" >/dev/null 2>&1
/venv/bin/python - "$OUT" <<'PY'
import json,sys,xml.etree.ElementTree as ET
base=json.load(open('/root/.vp/BASELINE.json'))
want=set(base['stable_pass'])
t=ET.parse(sys.argv[1]).getroot()
passed=set()
for tc in t.iter('testcase'):
    name=f"{tc.get('classname')}::{tc.get('name')}"
    if not any(c.tag in('failure','error','skipped') for c in tc): passed.add(name)
missing=sorted(want-passed)
print(f"stable_pass={len(want)} now_passing={len(passed)} missing={len(missing)}")
for m in missing[:20]: print("  MISSING",m)
sys.exit(1 if missing else 0)
PY
rc=$?; rm -f "$OUT"; exit $rc
