"""Run the sensitivity catalogue: apply one mutation at a time to a scratch copy of /repo/src and run the property's
quick check against it (FSIM_REPO_SRC).  usage: tools/sensitivity.py [--validate] [--runs N] [--catalogue catalogue_ldm] [--only NAME] [--out FILE] [PROP ...]
Writes /verif/mutants/RESULTS.json (mutant -> caught / survived, signatures)."""
import json, os, re, shutil, subprocess, sys, tempfile
VERIF = os.path.dirname(os.path.dirname(os.path.abspath(__file__)))
sys.path.insert(0, VERIF)
import importlib

def main():
    args = sys.argv[1:]
    cat = args[args.index("--catalogue") + 1] if "--catalogue" in args else "catalogue"     # e.g. catalogue_ldm
    CATALOGUE = importlib.import_module("mutants." + cat).CATALOGUE
    only = args[args.index("--only") + 1] if "--only" in args else None
    validate = "--validate" in args
    runs = None
    if "--runs" in args:
        runs = args[args.index("--runs") + 1]
    props = [a for a in args if re.fullmatch(r"C\d\d", a)]
    res_path = args[args.index("--out") + 1] if "--out" in args else os.path.join(VERIF, "mutants/RESULTS.json")
    results = json.load(open(res_path)) if os.path.exists(res_path) else {}
    bad = 0
    for ent in CATALOGUE:
        prop, name, rel, old, new = ent[:5]
        count = ent[5] if len(ent) > 5 else 1
        if (props and prop not in props) or (only and name != only):
            continue
        src = open(os.path.join("/repo/src/flexstack", rel)).read()
        if src.count(old) != count:
            print(f"CATALOGUE-ERROR {prop}/{name}: pattern occurs {src.count(old)} times in {rel} (expected {count})")
            bad += 1
            continue
        if validate:
            continue
        scratch = tempfile.mkdtemp(prefix="fsim-mut-")
        try:
            shutil.copytree("/repo/src", os.path.join(scratch, "src"))
            p = os.path.join(scratch, "src/flexstack", rel)
            open(p, "w").write(src.replace(old, new))
            env = dict(os.environ, FSIM_REPO_SRC=os.path.join(scratch, "src"), FSIM_SKIP_FRESH="1",
                       FSIM_OUT_DIR=os.path.join(scratch, "out"))
            cmd = ["./run", prop, "--tier", "quick"] + (["--runs", runs] if runs else [])
            out = subprocess.run(cmd, cwd=VERIF, env=env, capture_output=True, text=True, timeout=3600)
            sigs = sorted(set(re.findall(r"^VIOLATION property=\S+ replay=\S+ rule=(\S+) key=(\S+)", out.stdout, re.M)))
            status = "caught" if out.returncode == 1 and sigs else ("harness-error" if out.returncode == 2 else "survived")
            results[f"{prop}/{name}"] = {"status": status, "exit": out.returncode, "signatures": [f"{r} {k}" for r, k in sigs][:12], "file": rel}
            print(f"{prop}/{name}: {status} ({len(sigs)} signatures) {sigs[:2]}", flush=True)
            if status == "harness-error":
                print(out.stdout[-1500:])
        finally:
            shutil.rmtree(scratch, ignore_errors=True)
        json.dump(results, open(res_path, "w"), indent=1, sort_keys=True)
    return 1 if bad else 0

if __name__ == "__main__":
    sys.exit(main())
