"""Regenerates MANIFEST.json from the table below (kept valid at all times)."""
import json, os
CHECKS = {
 "C01": ("net", "5", "Seeded search over timed request/fault plans on 2-5 real GN+BTP stacks sharing a simulated ether; delivery oracle over the recorded history (exactly-once, byte-identical, metadata, order, never wrong port/station/self), bounded by the sampled plans.",
         "deterministic simulation (virtual-time multi-station ether, seeded plans, fault injection: drop/dup/delay/partition/restart/send errors) + history oracle"),
 "C02": ("net", "5", "Every frame handed to LinkLayer.send in seeded multi-station runs (originated beacon/SHB/GBC/GAC/GUC/LS and forwarded copies) is compared octet for octet with an independent reference encoding; every delivered conformant frame (including reference-peer injections with boundary-biased field values) is decoded by the repo's decoders and compared field by field. Field spaces are sampled, not swept.",
         "deterministic simulation (multi-station ether, reference peer injecting conformant packets) + ether conformance monitor against an independent reference codec"),
 "C03": ("net+sec", "5", "2-4 secured real stacks exchange genuine traffic while an adversary node mutates captured secured frames (bit flips, byte substitutions, truncations, extensions at seeded positions), edits decoded fields and re-encodes, signs under self-made chains / tickets it does not own / re-signed or key-swapped certificates, strips the envelope or replays; every upper-layer indication must be justified by an independent verifier (raw ecdsa, chain to the configured root, permissions, validity); trust stores are re-verified at the end. Bit positions are sampled, not swept.",
         "deterministic simulation (multi-station secured ether with a byzantine adversary node: corrupt/forge/replay faults in seeded orders) + independent cryptographic verifier as oracle"),
 "C04": ("rx", "5", "The real receive loops (RawLinkLayer.receive on a scripted fake socket, PythonCV2XLinkLayer.callback_handler_loop on a scripted queue) of a station wired like examples/all_sender_and_receiver.py are fed seeded streams mixing genuine peer traffic with random bytes, grammar-based malformed frames, mutations of valid unsecured and secured frames, undecodable facility payloads and MAC-filtered frames; the loop must stay alive, bad frames must leave no trace (handlers, emitted frames, location table, trust store, LDM) and a twin station that never saw the bad frames must stay identical.",
         "deterministic simulation (scripted socket/queue seam, receive loop as parked real thread, corrupt/inject fault sequences) + twin-station differential oracle and thread-liveness invariant"),
 "C05": ("net+sec", "5", "2-5 secured real stacks send CAM/VAM/DENM/generic-profile messages in virtual time; stations join at seeded instants relative to the senders' 1 s certificate-inclusion timers, with and without pre-loaded peer tickets, on lossless and lossy ethers; every verification result at every receiver and every emitted envelope (decoded independently) is judged: acceptance when the certificate is carried or known, the P2PCD learning exchange step by step, the 1 s inclusion rule and the TS 103 097 7.1 header profiles.",
         "deterministic simulation (virtual-time secured ether, late joiners, loss/partition faults) + per-message oracle over the recorded verification and emission history"),
 "C06": ("net", "5", "Line / ring / mesh topologies of 3-6 real stations plus a reference peer injecting TSB/GBC/GAC/GUC/LS packets with arbitrary RHL, exact duplicates and replays; every reception is classified by a reference duplicate packet list and the station's deliveries and transmissions are judged (at most once, never own address, forwarded copy = received with RHL-1, none for RHL 0/1, CBF copy dropped on duplicate, floods terminate).",
         "deterministic simulation (multi-hop ether, seeded duplication/replay/reorder/restart faults, virtual CBF timers) + reference DPL model and forwarding-equality monitor"),
 "C07": ("net", "5", "One sender and 3-8 real receivers placed inside / outside / near the border of circles, rectangles and ellipses anywhere on the globe (incl. rotation and the antimeridian); delivery is compared with an independent EN 302 931 oracle (two projections, tolerance band), oversize areas must be refused and the observable part of the Annex D choice is checked against the reference.",
         "deterministic simulation (star topology ether, harness-placed receivers, reference-peer packets with position-accuracy flag) + independent geometry oracle"),
 "C08": ("net", "5", "A real router with a skewed clock receives seeded histories of all packet types from phantom sources with timestamps behind / equal / ahead of its clock, across the 2^32 ms wrap and across virtual gaps of several LocTE lifetimes; after every processed packet the table is compared with a reference location table; TST order laws are checked on boundary-biased pairs.",
         "deterministic simulation (virtual clock with per-station skew, wrap-around epoch, reference-peer histories) + lock-step reference location table"),
 "C09": ("sec", "5", "Seeded histories of add-root/add-AA/add-AT/verify-chain calls, received signed messages and issuing-API calls mixing genuine certificates with forged, re-signed, permission-escalated, wrongly-issued and expired ones, on a virtual clock crossing validity boundaries; after every operation every entry of the trust store must pass an independent chain verifier (raw ecdsa), accepted messages must lie within the ticket's permissions and validity, issued certificates within the issuer's permissions.",
         "deterministic simulation (virtual clock, seeded ECDSA entropy, byzantine certificate/message histories) + independent chain verifier as oracle"),
 "C10": ("fac", "5", "CA and VRU services on virtual timers driven by a simulated GNSS (1-50 Hz trajectories: constant, accelerating, turning through 0/360, stop-and-go, threshold jitter, gaps, sparse fields, start/stop/restart, epochs before the 65.536 s wrap); from the BTP requests with virtual timestamps: CAM min/max gap, first-check trigger rule (reference rule engine), LF cadence, activation window, latest report, generationDeltaTime; VAM first/min/max gap and LF cadence.",
         "deterministic simulation (virtual clock and timers, simulated GNSS report stream, timer early/late and send-error faults) + reference rule engine over the recorded message history"),
 "C11": ("fac", "5", "The C10 runs with reports drawn over the full GNSS ranges and every optional-field subset, all station types/roles and clustering states, plus DEN requests; every payload handed to BTP is decoded with the repo's coder and compared element by element with an independent mapping oracle; generation must not raise or stall; a receiver station reconstructs the generation time.",
         "deterministic simulation (same engine as C10, receiver station on the ether for the reconstruction clause) + independent field-mapping oracle"),
 "C12": ("ldm", "5", "Seeded operation/clock-advance histories over IF.LDM.3/IF.LDM.4 (register, add, update, delete, query, maintenance reactive/threaded/explicit) on both back-ends, stepped in lock-step with a reference map with registration gating and expiry.",
         "deterministic simulation (virtual clock incl. monotonic, parked maintenance thread, TinyDB on a scratch file) + lock-step reference store model"),
 "C13": ("ldm", "5", "The C12 histories with heterogeneous CAM/DENM/VAM stores on Dictionary and TinyDB side by side; every request (8 operators, and/or, all type selections, order tuples) is compared with a brute-force predicate over the reference map and between back-ends. The filter space is sampled.",
         "deterministic simulation (two real back-ends in lock-step) + brute-force reference predicate and differential comparison"),
 "C14": ("ldm", "5", "Seeded interleavings of subscribe/unsubscribe, register/deregister, add and virtual clock advance with several consumers; reactive, periodic (parked thread) and explicit attendance; every callback invocation is compared with a reference subscription model (matching objects, order, multiplicity, interval at 1 s resolution, silence after unsubscribe/deregistration, result codes).",
         "deterministic simulation (virtual clock, parked periodic service thread) + reference subscription model"),
 "C17": ("fac-den", "5", "DEN requests (emergency vehicle / collision risk) with intervals 100..10000 ms, durations 0..60 s, event positions on both hemispheres, overlapping events; repetition threads run as parked real threads on virtual sleep; count, cadence, GBC circle at the event position, stable and unique action ids, non-decreasing reference times, and presence in the receiver's LDM are judged.",
         "deterministic simulation (parked repetition threads on a virtual clock, 2-station ether, clock jumps and send errors) + history oracle"),
 "C18": ("fac-cluster", "5", "Single-manager event/clock histories over the clustering alphabet and 2-3 station closed loops through the real VAM coder, BTP/GN and ether; after every event the public API is compared with the invariants of the statement (leader/passive consistency, suppression only while passive/idle, recovery after leader loss or break-up, notification durations, join completion).",
         "deterministic simulation (virtual time_fn, seeded cluster-id PRNG, multi-station closed loop) + invariant oracle over the public API; no exhaustive depth-bounded exploration"),
 "C19": ("dcc", "5", "Seeded timed histories (CBR samples, packet offers, delta updates on a virtual clock) drive the real DccReactive/DccAdaptive/GateKeeper step by step against an independent reference of TS 102 687 Annex A, clause 5.4 and equations B.1/B.2.",
         "deterministic simulation (virtual clock, seeded channel-load and packet-arrival processes) + lock-step reference model"),
 "C20": ("net", "5", "Originated frames of every transport type with boundary-biased requested lifetimes / hop limits are judged on the wire (LT value <= request, largest representable, non-zero from 50 ms, RHL/MHL rules); injected packets with all 256 LT codes and RHL > MHL are judged at the receiver (remaining lifetime, decode, discard). The requested-lifetime space is sampled with measured reach, not exhaustively swept.",
         "deterministic simulation (multi-station ether, reference peer injections) + ether monitor against an independent LT quantiser"),
}
NOT_APPLICABLE = {}
ALL = ["C%02d" % i for i in range(1, 21)]
man = {
 "version": 1,
 "setup_cmd": "/venv/bin/python -c \"import sys; sys.path.insert(0,'/repo/src'); import flexstack, ecdsa, asn1tools, tinydb, dateutil\"",
 "hooks": {"guard": "FLEXSTACK_VERIF", "enable": "no source hooks: every seam is a module attribute patched from /verif/fsim at run time; ./run exports FLEXSTACK_VERIF=1 for completeness",
           "baseline_off_cmd": "cd /repo && /venv/bin/python -m pytest -ra -q -p no:cacheprovider --timeout=900 --continue-on-collection-errors",
           "source_commits": [], "add_only": True},
 "engines": [
  {"name": "net", "path": "fsim/netsim.py", "serves_properties": ["C01", "C02", "C06", "C07", "C08", "C20"], "kind_free_text": "discrete-event virtual-time kernel + simulated ether with several real GN/BTP stacks"},
  {"name": "net+sec", "path": "fsim/secnet.py", "serves_properties": ["C03", "C05"], "kind_free_text": "NetSim stations with real SignService/VerifyService sharing a deterministic PKI (seeded ECDSA); verification and emission recorders"},
  {"name": "rx", "path": "fsim/rxsim.py", "serves_properties": ["C04"], "kind_free_text": "real link-layer receive loops on fake socket / queue seams feeding real GN, BTP, facilities, LDM and security; twin station for differential checking"},
  {"name": "fac", "path": "fsim/facsim.py", "serves_properties": ["C10", "C11"], "kind_free_text": "real CA/VRU/DEN services with real coders on virtual timers, simulated GNSS; recording BTP stub or real 2-station GN/BTP stack"},
  {"name": "fac-den", "path": "fsim/densim.py", "serves_properties": ["C17"], "kind_free_text": "real DEN service + EVA application + LDM on NetSim stations; repetition threads parked on virtual sleep"},
  {"name": "fac-cluster", "path": "fsim/clustersim.py", "serves_properties": ["C18"], "kind_free_text": "real VBSClusteringManager (single) and VAM transmission/reception managements in a multi-station closed loop"},
  {"name": "sec", "path": "fsim/secsim.py", "serves_properties": ["C09"], "kind_free_text": "real CertificateLibrary/VerifyService/SignService on a virtual clock with seeded ECDSA (fsim/seccrypto.py: deterministic PKI factory, forgery toolkit, independent verifier)"},
  {"name": "ldm", "path": "fsim/ldmsim.py", "serves_properties": ["C12", "C13", "C14"], "kind_free_text": "real LDM (factory, IF.LDM.3/4, service and maintenance variants, both back-ends) on a virtual clock with reference store/filter/subscription models"},
  {"name": "dcc", "path": "fsim/props/c19.py", "serves_properties": ["C19"], "kind_free_text": "virtual-clock driver for DCC entities with an independent reference (fsim/refdcc.py)"},
 ],
 "checks": [],
 "notes": "All checks: ./run <id> --tier quick|thorough; VERIF_SEED selects the batch; exit 0 held / 1 VIOLATION / 2 harness error. See DESIGN.md.",
 "not_applicable": [],
}
for pid in ALL:
    if pid in CHECKS:
        eng, ref, text, tech = CHECKS[pid]
        man["checks"].append({
            "property_id": pid, "quick_cmd": f"./run {pid} --tier quick", "thorough_cmd": f"./run {pid} --tier thorough",
            "evidence_file": f"evidence/{pid}.json", "replay_cmd_template": "./run replay {path}", "engine": eng,
            "level_claimed": {"category": "exploration", "text": text, "design_ref": "DESIGN.md section " + ref},
            "level_note": "Trusted: CPython 3.12, asn1tools, ecdsa, tinydb, the reference codec/models in /verif/fsim; a clean batch is evidence, not proof.",
            "technique": tech})
    else:
        man["not_applicable"].append({"property_id": pid, "reason": NOT_APPLICABLE.get(pid, "check under construction in this session (deterministic simulation planned, see DESIGN.md section 5); not claimed until its check is committed")})
json.dump(man, open(os.path.join(os.path.dirname(__file__), "..", "MANIFEST.json"), "w"), indent=1)
print("checks:", len(man["checks"]), "not_applicable:", len(man["not_applicable"]))
