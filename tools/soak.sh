#!/bin/bash
# Soak: run the quick (or thorough) tier of every property for several VERIF_SEED values against /repo, keeping evidence and
# replays out of /verif/evidence (FSIM_OUT_DIR).  Any non-zero exit on the unchanged tree is either a genuine defect or a
# false alarm and must be triaged.   usage: tools/soak.sh <tier> <seed> [<seed> ...]   (PROPS="C01 C02" to restrict)
cd "$(dirname "$0")/.."
TIER="$1"; shift
OUT="${SOAK_OUT:-/tmp/fsim-soak}"
mkdir -p "$OUT"
PROPS="${PROPS:-C01 C02 C03 C04 C05 C06 C07 C08 C09 C10 C11 C12 C13 C14 C15 C16 C17 C18 C19 C20}"
for seed in "$@"; do
  for p in $PROPS; do
    s=$(date +%s)
    VERIF_SEED=$seed FSIM_OUT_DIR="$OUT/s$seed" FSIM_SKIP_FRESH=${FSIM_SKIP_FRESH:-1} timeout 14400 ./run $p --tier $TIER > "$OUT/$p-$TIER-s$seed.log" 2>&1
    e=$?
    echo "seed=$seed $p tier=$TIER exit=$e t=$(( $(date +%s)-s ))s $(grep -c '^VIOLATION' "$OUT/$p-$TIER-s$seed.log") violations; $(tail -1 "$OUT/$p-$TIER-s$seed.log" | cut -c1-200)"
  done
done
