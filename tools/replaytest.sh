#!/bin/bash
# Replay self-test: on a scratch copy with a seeded breakage applied, the check must write a replay file that
# (a) reproduces the same violation with the same event digest on the broken tree, in a fresh process, and
# (b) does not reproduce on the unchanged tree.   usage: tools/replaytest.sh <seeded-id> <PROP> [runs]
ID="$1"; PROP="$2"; RUNS="${3:-600}"
S=$(mktemp -d /tmp/replaytest.XXXXXX); trap 'rm -rf "$S"' EXIT
cp -r /repo/src "$S"/ && (cd "$S" && patch -p1 -s < /verif/seeded/$ID/patch.diff) || { echo "patch failed"; exit 9; }
cd /verif
OUT=$(FSIM_REPO_SRC="$S/src" FSIM_SKIP_FRESH=1 ./run $PROP --tier quick --runs $RUNS 2>&1 | grep "^VIOLATION" | head -1)
F=$(echo "$OUT" | sed -n 's/.*replay=\([^ ]*\).*/\1/p')
[ -z "$F" ] && { echo "$ID/$PROP: no violation found in $RUNS runs"; exit 1; }
A=$(FSIM_REPO_SRC="$S/src" ./run replay "$F" 2>&1 | tail -1); RA=$?
B=$(./run replay "$F" 2>&1 | tail -1); RB=$?
echo "$ID/$PROP replay=$(basename $F) ops=$(jq '.steps_before' $F)->$(jq '.steps_after' $F)"
echo "  broken tree : $(echo "$A" | cut -c1-160)"
echo "  clean tree  : $(echo "$B" | cut -c1-120)"
echo "$A" | grep -q "^VIOLATION" && ! echo "$A" | grep -q "trace differs" && echo "$B" | grep -q "^NOT-REPRODUCED" && echo "  REPLAY-OK" || echo "  REPLAY-PROBLEM"
