#!/bin/bash
# Evaluate a seeded breakage against a check without touching /repo's working tree.
# usage: tools/seedcheck.sh <seed-out-dir> <PROP> [extra ./run args...]
#   <seed-out-dir> contains patch.diff and demo.py
# Steps: scratch copy of /repo (git archive HEAD + working tree src), demo on clean (expect 0), apply patch,
#        demo on patched (expect 1), pinned tests on patched (expect all stable_pass), ./run PROP on patched (expect 1).
set -u
OUT="$1"; PROP="$2"; shift 2
S=$(mktemp -d /tmp/seedrun.XXXXXX)
trap 'rm -rf "$S"' EXIT
cp -r /repo/src /repo/tests /repo/pyproject.toml "$S"/ 2>/dev/null
cd "$S"
PYTHONPATH="$S/src" timeout 300 /venv/bin/python "$OUT/demo.py" >/dev/null 2>&1; echo "demo_clean_exit=$?"
if ! patch -p1 -s < "$OUT/patch.diff"; then echo "PATCH-DOES-NOT-APPLY"; exit 9; fi
PYTHONPATH="$S/src" timeout 300 /venv/bin/python "$OUT/demo.py" >/dev/null 2>&1; echo "demo_patched_exit=$?"
/verif/tools/baseline.sh "$S" | head -3
cd /verif
FSIM_OUT_DIR="$S/out" FSIM_REPO_SRC="$S/src" timeout 1800 ./run "$PROP" --tier quick "$@" 2>&1 | grep -v "^KNOWN-FINDING" | cut -c1-260 | tail -6
echo "check_exit=${PIPESTATUS[0]}"
